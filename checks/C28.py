#!/usr/bin/env python3
"""C28 -- DataLoader delivers correct batched results under every interleaving.
M: DataLoader.tla -- load_many critical section, immediate_load / start_fetch tasks, timer firings, loader returns (Ok/Err),
   waiter cancellation; invariants ResultsExact, EveryKeyLoaded, NoDuplicateKeyInBatch, BatchBound, TimerCoversPending and
   liveness Completes under weak fairness, for max_batch_size 1..3 and every cache mode.
G: Gen_DataLoader.tla -- behaviours of the model as schedules (BFS: every behaviour of 2 requests over 2 keys; -simulate:
   sampled behaviours of 3 requests over 3 keys and of 6 requests over 5 keys), plus seeded random command lists.
harness: c28 replays each schedule through a real DataLoader with a manual spawner, manual Timer and gated Loader.
V: DataLoaderTrace.tla -- verdict by the property monitor over the logged history; drift by replaying the model's actions."""
import json, os, random, sys
sys.path.insert(0, os.path.join(os.path.dirname(os.path.abspath(__file__)), "..", "lib"))
import vlib

INVARIANTS = ["ResultsExact", "EveryKeyLoaded", "NoDuplicateKeyInBatch", "BatchBound", "TimerCoversPending"]
ACTIONS = ["LoadMany", "Run", "Fire", "Return", "Cancel"]
MODES = ["none", "map", "lru1", "lru2", "mapoff"]


def tla_set(xs):
    return "{" + ", ".join(xs) + "}"


def consts(keys, nreq, mbs, modes, prefeds, holesets, errs=True, cancels=True):
    ks = lambda s: tla_set(str(k) for k in s)
    return ("CONSTANT Keys = %s\nCONSTANT NReq = %d\nCONSTANT MaxBatches = %s\nCONSTANT Modes = %s\nCONSTANT Prefeds = %s\n"
            "CONSTANT HoleSets = %s\nCONSTANT Errs = %s\nCONSTANT Cancels = %s\n"
            % (ks(keys), nreq, ks(mbs), tla_set('"%s"' % m for m in modes), tla_set(ks(p) for p in prefeds),
               tla_set(ks(h) for h in holesets), "TRUE" if errs else "FALSE", "TRUE" if cancels else "FALSE"))


def model_check(c, label, cfg_text, liveness, timeout, actions):
    cfg = c.path("MC_%d.cfg" % len(c.cov["tlc_runs"]))
    with open(cfg, "w") as f:
        f.write(cfg_text + ("SPECIFICATION Spec\nPROPERTY Completes\n" if liveness else "INIT Init\nNEXT Next\n")
                + "".join("INVARIANT %s\n" % i for i in INVARIANTS))
    m = vlib.run_tlc("conc/DataLoader.tla", cfg, workers=4, coverage=True, timeout=timeout, xmx="16g")
    if m.invariant_violated:
        raise vlib.ToolError("design-level failure in DataLoader.tla (%s): %s" % (label, m.invariant_violated))
    for act in actions:
        if m.coverage.get("DataLoader!" + act, (0, 0))[0] == 0:
            raise vlib.ToolError("vacuity: action %s never taken in mode M (%s)" % (act, label))
    c.add_tlc("M " + label, m)


def generate(c, label, cfg_text, **kw):
    cfg = c.path("Gen_%d.cfg" % len(c.cov["tlc_runs"]))
    with open(cfg, "w") as f:
        f.write(cfg_text + "INIT GInit\nNEXT GNext\nINVARIANT Emit\n")
    g = vlib.run_tlc("conc/Gen_DataLoader.tla", cfg, timeout=2400, keep_lines=50, xmx="12g", **kw)
    c.add_tlc("G " + label, g)
    return sorted(set(t[1] for t in g.tagged("REPLAY")))


def hostile(rng, nreq, keys):
    """command lists that are not behaviours of the model: ids out of range, commands that do not apply"""
    s, r = [], 0
    for _ in range(rng.randint(4, 30)):
        x = rng.random()
        if x < 0.35 and r < nreq:
            r += 1
            s.append({"c": "load", "r": r, "ks": sorted(rng.sample(keys, rng.randint(1, min(3, len(keys))))), "t": 0, "b": 0, "ok": False})
        elif x < 0.50:
            s.append({"c": "run", "r": 0, "ks": [], "t": rng.randint(1, 5), "b": 0, "ok": False})
        elif x < 0.68:
            s.append({"c": "fire", "r": 0, "ks": [], "t": rng.randint(1, 5), "b": 0, "ok": False})
        elif x < 0.90:
            s.append({"c": "ret", "r": 0, "ks": [], "t": 0, "b": rng.randint(1, 5), "ok": rng.random() < 0.75})
        else:
            s.append({"c": "cancel", "r": rng.randint(1, max(r, 1)), "ks": [], "t": 0, "b": 0, "ok": False})
    return s


def body(c):
    all_cfg = dict(mbs=[1, 2, 3], modes=MODES, prefeds=[[], [1]], holesets=[[]])
    # ---- mode M ---------------------------------------------------------------------------------------------------------
    acts = [a for a in ACTIONS if a != "Cancel"]
    if c.quick:
        model_check(c, "3 requests over 3 keys, batch 1-3, cache none/map/lru1/lru2, loader Ok: invariants",
                    consts([1, 2, 3], 3, errs=False, cancels=False, **dict(all_cfg, prefeds=[[]], modes=MODES[:4])), False, 900, acts)
        model_check(c, "2 requests over 2 keys, batch 1-3, all cache modes, pre-fed cache, Ok/Err, cancellation: invariants + liveness",
                    consts([1, 2], 2, **all_cfg), True, 900, ACTIONS)
    else:
        model_check(c, "3 requests over 3 keys, batch 1-3, all cache modes, pre-fed cache, loader Ok: invariants",
                    consts([1, 2, 3], 3, errs=False, cancels=False, **all_cfg), False, 3000, acts)
        model_check(c, "3 requests over 3 keys, batch 2, lru1, pre-fed cache, Ok/Err, cancellation: invariants",
                    consts([1, 2, 3], 3, **dict(all_cfg, mbs=[2], modes=["lru1"], prefeds=[[1]])), False, 3000, ACTIONS)
        model_check(c, "3 requests over 2 keys, batch 1-3, all cache modes, Ok/Err, cancellation: invariants + liveness",
                    consts([1, 2], 3, **dict(all_cfg, prefeds=[[]])), True, 3000, ACTIONS)

    # ---- mode G ---------------------------------------------------------------------------------------------------------
    rng = random.Random(c.seed)
    bfs = generate(c, "BFS: every behaviour of 2 requests over 2 keys", consts([1, 2], 2, **(dict(all_cfg, prefeds=[[1]]) if c.quick else all_cfg)),
                   workers=4)
    n_bfs_all = len(bfs)
    cap = 2500 if c.quick else 20000
    exhaustive = len(bfs) <= cap
    if not exhaustive:
        bfs = sorted(rng.sample(bfs, cap))
    sim3 = generate(c, "simulation: 3 requests over 3 keys", consts([1, 2, 3], 3, **all_cfg), workers=1,
                    simulate=400 if c.quick else 4000, depth=40, seed=c.seed)
    sim6 = generate(c, "simulation: 6 requests over 5 keys, batch 1-4, LRU(3), keys unknown to the loader",
                    consts([1, 2, 3, 4, 5], 6, mbs=[1, 2, 3, 4], modes=MODES + ["lru3"], prefeds=[[], [1, 2]], holesets=[[], [5]]),
                    workers=1, simulate=80 if c.quick else 1200, depth=60, seed=c.seed)
    cases = []
    for src, lst in (("bfs", bfs), ("sim3", sim3), ("sim6", sim6)):
        for s in lst:
            o = json.loads(s)
            o.update(id=len(cases) + 1, src=src)
            cases.append(o)
    for _ in range(300 if c.quick else 5000):
        keys = [1, 2, 3, 4, 5]
        cases.append({"id": len(cases) + 1, "src": "hostile",
                      "conf": {"mb": rng.choice([1, 2, 3, 4]), "mode": rng.choice(MODES + ["lru3"]), "prefed": rng.choice([[], [1, 2]])},
                      "holes": rng.choice([[], [5]]), "sched": hostile(rng, 6, keys)})
    if len(sim3) < 50 or len(sim6) < 50:
        raise vlib.ToolError("simulation produced too few schedules (%d, %d)" % (len(sim3), len(sim6)))
    vlib.write_ndjson(c.path("schedules.ndjson"), cases)

    (binary,) = vlib.build_harness(["c28"])
    p = vlib.run_harness(binary, [c.path("schedules.ndjson"), c.path("trace.ndjson")], timeout=1800)
    if p.returncode != 0:
        raise vlib.ToolError("c28 harness failed: " + p.stderr[-2000:])
    traces = vlib.read_ndjson(c.path("trace.ndjson"))
    if len(traces) != len(cases):
        raise vlib.ToolError("harness returned %d of %d traces" % (len(traces), len(cases)))

    # negative controls: a corrupted delivered value, a dropped delivery, a duplicated batch key
    neg = []
    for tr in traces:
        for i, e in enumerate(tr["events"]):
            if len(neg) == 0 and e["ev"] == "ret" and e["dels"] and e["dels"][0]["res"]:
                bad = json.loads(json.dumps(tr)); bad["id"] = -1
                bad["events"][i]["dels"][0]["res"][0]["v"] += 7
                neg.append(bad)
            elif len(neg) == 1 and e["ev"] == "ret" and e["dels"]:
                bad = json.loads(json.dumps(tr)); bad["id"] = -2
                bad["events"][i]["dels"] = []
                neg.append(bad)
            elif len(neg) == 2 and e["ev"] in ("run", "fire") and e["b"]:
                bad = json.loads(json.dumps(tr)); bad["id"] = -3
                bad["events"][i]["ks"] = e["ks"] + e["ks"][:1]
                neg.append(bad)
        if len(neg) == 3:
            break
    if len(neg) != 3:
        raise vlib.ToolError("could not build negative controls")
    vlib.write_ndjson(c.path("trace_v.ndjson"), neg + traces)

    # ---- mode V: verdict by the property monitor ---------------------------------------------------------------------
    v = vlib.run_tlc("conc/DataLoaderTrace.tla", "conc/DataLoaderTrace.cfg", env={"TRACE": c.path("trace_v.ndjson")}, workers=4,
                     timeout=3000, keep_lines=50, xmx="12g")
    verdicts = {t[1]: (t[2], t[3]) for t in v.tagged("VERDICT")}
    if len(verdicts) != len(traces) + 3:
        raise vlib.ToolError("V produced %d verdicts for %d traces" % (len(verdicts), len(traces) + 3))
    for x in neg:
        if verdicts[x["id"]][0] != "violation":
            raise vlib.ToolError("negative control %d was not rejected by the monitor" % x["id"])
    c.notes.append("V verdict run: %d traces in %.1fs" % (len(traces), v.wall))
    stats = {"shared_batches": 0, "cache_hits": 0, "errors": 0, "cancels": 0, "skips": 0, "early_returns": 0}
    for tr in traces:
        ev = tr["events"]
        c.count_case({"conf": tr["conf"], "holes": tr["holes"], "events": ev}, nontrivial=any(e["b"] for e in ev if e["ev"] in ("run", "fire")))
        stats["shared_batches"] += any(len(e["dels"]) >= 2 for e in ev)
        stats["cache_hits"] += any(r["v"] >= 100 or r["v"] < e.get("b", 0) for e in ev if e["ev"] == "ret" for d in e["dels"] for r in d["res"])
        stats["early_returns"] += any(e["ev"] == "load" and e["fin"] for e in ev)
        stats["errors"] += any(d["err"] for e in ev for d in e["dels"])
        stats["cancels"] += any(e["ev"] == "cancel" for e in ev)
        if any(e["ev"] == "skip" for e in ev) and tr["src"] != "hostile":
            stats["skips"] += 1   # a model behaviour whose command did not apply: only the unordered LRU fill may explain it
            if not tr["conf"]["mode"].startswith("lru"):
                c.drift("trace %s: a command of a model-generated schedule did not apply (mode %s)" % (tr["id"], tr["conf"]["mode"]))
        vd, at = verdicts[tr["id"]]
        c.verdict(vd, tr, "the property monitor rejected event %s (%s)" %
                  (at, json.dumps(ev[at - 1])[:300] if 0 < at <= len(ev) else "?"))
    for k in ("shared_batches", "cache_hits", "errors", "cancels", "early_returns"):
        if stats[k] == 0:
            raise vlib.ToolError("vacuity: no trace with " + k)
    c.cov["trace_stats"] = stats
    c.cov["traces_validated_against_impl"] = len(traces)

    # ---- drift: the model's own actions must accept what the implementation did (never a verdict) ------------------------
    dn = 1500 if c.quick else 6000
    dsel = [neg[0]] + (traces if len(traces) <= dn else sorted(rng.sample(traces, dn), key=lambda t: t["id"]))
    vlib.write_ndjson(c.path("trace_d.ndjson"), dsel)
    d = vlib.run_tlc("conc/DataLoaderTrace.tla", "conc/DataLoaderDrift.cfg", env={"TRACE": c.path("trace_d.ndjson")}, workers=1,
                     timeout=3000, keep_lines=50, xmx="12g", deque=True)
    prog = {t[1]: (t[2], t[3]) for t in d.tagged("PROGRESS")}
    if len(prog) != len(dsel):
        raise vlib.ToolError("drift run reported %d of %d traces" % (len(prog), len(dsel)))
    if prog[-1][0] == prog[-1][1]:
        raise vlib.ToolError("negative control -1 was not rejected by the drift replay")
    for tid, (got, total) in sorted(prog.items()):
        if tid > 0 and got != total:
            c.drift("trace %s: the DataLoader model matched %s of %s events" % (tid, got, total))
    c.add_tlc("V drift replay (%d traces)" % (len(dsel) - 1), d)
    c.cov["exhaustive"] = exhaustive
    c.cov["rule"] = ("G: (a) every behaviour of the DataLoader model with 2 requests over 2 keys, max_batch_size 1-3, cache modes "
                     "none/map/lru1/lru2/map-disabled, empty or pre-fed cache, loader Ok/Err, waiter cancellation, as a schedule of "
                     "load/run/fire/ret/cancel commands (TLC BFS with history variable: %d schedules, %s); (b) TLC -simulate behaviours "
                     "of 3 requests over 3 keys (%d) and of 6 requests over 5 keys with batch 1-4, LRU(3) and keys unknown to the loader "
                     "(%d); (c) %d seeded random command lists with inapplicable commands.  Each is replayed step by step through a real "
                     "DataLoader and drained to quiescence; non-trivial = at least one batch reached the loader; distinct by "
                     "(configuration, recorded event list)"
                     % (n_bfs_all, "all replayed" if exhaustive else "%d sampled" % cap, len(sim3), len(sim6),
                        sum(1 for t in traces if t["src"] == "hostile")))
    for x in [t for t in traces if any(len(e["dels"]) >= 2 for e in t["events"])][:1] + traces[-1:]:
        c.sample({"conf": x["conf"], "sched": [[s["c"], s["r"] or s["t"] or s["b"], s["ks"] or s["ok"]] for s in x["sched"]][:12],
                  "events": [{k: v for k, v in e.items() if v not in (0, [], False, "")} for e in x["events"]][:12],
                  "verdict": verdicts[x["id"]][0]})
    c.assumptions += ["each poll of a future runs to its next await; the entry lock of the per-type Requests makes the critical "
                      "sections atomic (multi-threaded races inside scc / lru / futures are outside the model)",
                      "the waiter's own poll after its result was sent is folded into the LoaderReturn step (it reads nothing else)",
                      "'the cache held' is judged against get_cached_values taken when the load was issued (the cache itself is C29)",
                      "one key type (i32); request keys are looked up in ascending order"]


vlib.main("C28", "model_checking", body)
